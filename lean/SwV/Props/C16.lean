/-
C16 — theorems about the ec.balance model (Model/C16.lean) and the spec judges (Spec/C16.lean).

Proved for ALL inputs:
* the bitmap bookkeeping of one planned move (`moveMountedShardToEcNode`, dry run) is exact:
  the destination gains exactly that shard of that volume, the source loses exactly that shard,
  no other volume's bitmap changes (`add_bits_same/other`, `del_bits_same/other`);
* shard conservation (`copies st vid s` = number of servers holding the shard, i.e. the multiset of (vid, shard)):
  a guarded move — different servers, source holds, destination lacks — keeps the number of holders of EVERY
  (volume, shard) (`move_preserves_shards`), and so does any sequence of guarded moves
  (`guarded_moves_preserve_shards`); a pick of `pickNEcShardsToMoveFrom` followed by its move does too
  (`pick_then_move_preserves_shards`, `across_move_places_picked`); a move onto a holder loses one copy (`move_onto_holder_loses_copy`);
  the per-rack guard makes every move guarded (`rack_move_is_guarded`), the within-rack guard does as soon as
  the destination lacks the shard (`within_move_is_guarded`: that hypothesis is the open finding);
* deduplication (`ESt.dedupShard` / `dedupRun`, the applyBalancing branch) removes only duplicates: a treated
  shard that was present is present exactly once afterwards, everything else keeps its holders
  (`dedup_step_removes_only_duplicates`, `dedup_removes_only_duplicates`);
* every move approved by the across-racks and within-rack guards goes to another server with a
  free slot that holds fewer than the average of the volume, and an across-racks move keeps the
  destination rack within ceil(14/#racks) by the planner's counters (`across_move_guarded`,
  `within_move_guarded`);
* free slots by RECOUNT (capacity − shards the bitmaps hold; judge clause `…/target-full-by-recount-of-its-shards`):
  `addEcVolumeShards` / `deleteEcVolumeShards` keep counter + held shards of a server unchanged, deleting a shard a
  second time credits nothing (`del_twice_credits_once`: the across-racks step deletes every moved shard twice), so the
  counter equals the recount at build time and after every sequence of moves and picks (`build_counter_is_recount`,
  `moves_keep_counter_exact`), an approved destination has a really free slot (`approved_target_has_recounted_slot`)
  and the recount clause of the judge never fires on such a layout (`recount_clause_silent`);
* `ceilDiv_is_ceiling`: the model's ceiling division is ⌈a/b⌉ (exact divisions included);
* `bridge_*`: the guard texts the model was written from (regenerated from the source on every run).
FALSE of the code (negations proved on witnesses, the corpus holds the same inputs):
* the per-rack balancing guard does not imply a free slot (`rackbal_no_free_slot_witness`);
* no across/within guard checks that the destination lacks the shard (`dest_may_hold_shard_witness`);
* across-racks balancing can forget shards (`across_drops_shards_witness`).
Conservation along whole PHASES of the real planner is judged on every run (Spec.judgeBook), not proved.
-/
import SwV.Model.C16
import SwV.Spec.C16
import SwV.Lemmas.C16
import SwV.Lemmas.C16Slots
import SwV.Gen.C16
namespace SwV.Props.C16
open SwV.Model.C16 SwV.Spec.C16
open SwV.Lemmas.C16 (copies)

/-! ### exact bitmap bookkeeping of one planned move (proofs in Lemmas/C16.lean) -/

/-- `addEcVolumeShards`: the destination's bitmap of the volume gains exactly shard `s`. -/
theorem add_bits_same (n : ENode) (vid s j : Nat) :
    hasBit ((n.add vid s).bits vid) j = (hasBit (n.bits vid) j || decide (s = j)) := Lemmas.C16.add_bits_same n vid s j

/-- … and no other volume's bitmap changes. -/
theorem add_bits_other (n : ENode) (vid vid' s : Nat) (hne : vid' ≠ vid) :
    (n.add vid s).bits vid' = n.bits vid' := Lemmas.C16.add_bits_other n vid vid' s hne

/-- `deleteEcVolumeShards`: the source's bitmap of the volume loses exactly shard `s`. -/
theorem del_bits_same (n : ENode) (vid s j : Nat) :
    hasBit ((n.del vid s).bits vid) j = (hasBit (n.bits vid) j && !decide (s = j)) := Lemmas.C16.del_bits_same n vid s j

theorem del_bits_other (n : ENode) (vid vid' s : Nat) (hne : vid' ≠ vid) :
    (n.del vid s).bits vid' = n.bits vid' := Lemmas.C16.del_bits_other n vid vid' s hne

/-- the guard of `pickOneEcNodeAndMoveOneShard`: another server, with a free slot, below the average -/
theorem destOk_sound (cands : List ENode) (avg vid src : Nat) (d : ENode) (h : destOk cands avg vid src d = true) :
    d.id ≠ src ∧ d.free > 0 ∧ popc (d.bits vid) < avg := by
  simp [destOk] at h
  exact ⟨h.1.1.1, h.1.1.2, h.1.2⟩

/-- an approved across-racks move: free slot on the server, free slot and room below the even-spread
    target ceil(14/#racks) on the destination rack (planner counters) -/
theorem across_move_guarded (a : Across) (src s dst : Nat) (h : a.moveOk src s dst = true) :
    ∃ d, a.st.node? dst = some d ∧ d.id ≠ src ∧ d.free > 0 ∧ a.count d.rack + 1 ≤ a.avg ∧ a.st.rackFreeOf d.rack > 0 := by
  unfold Across.moveOk at h
  cases hd : a.st.node? dst with
  | none => simp [hd] at h
  | some d =>
    simp only [hd, Bool.and_eq_true] at h
    obtain ⟨⟨_, hel⟩, hdest⟩ := h
    have hs := destOk_sound _ _ _ _ _ hdest
    simp [Across.eligible] at hel
    exact ⟨d, rfl, hs.1, hs.2.1, by omega, hel.2⟩

theorem within_move_guarded (st : ESt) (avg vid src s dst : Nat) (h : withinMoveOk st avg vid src s dst = true) :
    ∃ sn d, st.node? src = some sn ∧ st.node? dst = some d ∧ d.rack = sn.rack ∧ d.id ≠ src ∧ d.free > 0 ∧
      hasBit (sn.bits vid) s = true ∧ popc (d.bits vid) < avg := by
  unfold withinMoveOk at h
  cases hs : st.node? src with
  | none => simp [hs] at h
  | some sn =>
    cases hd : st.node? dst with
    | none => simp [hs, hd] at h
    | some d =>
      simp only [hs, hd, Bool.and_eq_true] at h
      obtain ⟨⟨⟨hr, _⟩, hb⟩, hdest⟩ := h
      have hk := destOk_sound _ _ _ _ _ hdest
      exact ⟨sn, d, rfl, rfl, by simpa using hr, hk.1, hk.2.1, hb, hk.2.2⟩

example : ∃ a src s dst, Across.moveOk a src s dst = true :=
  ⟨acrossStart ⟨[⟨1, 1, 42, true, [(1, 255)]⟩, ⟨2, 2, 50, true, []⟩], [(1, 42), (2, 50)]⟩ 1, 1, 0, 2, by decide +kernel⟩

/-! ### what is false of the code -/

def wRack : ESt := ⟨[⟨2, 1, 0, true, []⟩, ⟨1, 1, -1, true, [(1, 2047)]⟩], [(1, -1)]⟩

/-- `doBalanceEcRack` plans shard 1.0 onto server 2 although its freeEcSlot is 0
    (corpus/C16/rackbal_no_free_slot.ops; class rackbal/target-without-free-slot). -/
theorem rackbal_no_free_slot_witness :
    rackMoveOk wRack 1 1 0 2 = true ∧ (wRack.node? 2).map (·.free) = some 0 ∧
    judgeMove "rackbal" wRack 1 1 0 2 = ["rackbal/target-without-free-slot"] := by decide +kernel

def wHold : ESt := ⟨[⟨2, 1, 49, true, [(1, 1)]⟩, ⟨1, 1, 46, true, [(1, 15)]⟩], [(1, 95)]⟩

/-- the within-rack guard approves moving shard 1.0 onto server 2, which holds shard 1.0
    (corpus/C16/within_onto_holder.ops; class within/target-already-holds-shard). -/
theorem dest_may_hold_shard_witness :
    withinMoveOk wHold (withinAvg wHold 1 1) 1 1 0 2 = true ∧
    judgeMove "within" wHold 1 1 0 2 = ["within/target-already-holds-shard"] := by decide +kernel

def wDrop : ESt := ⟨[⟨1, 1, 6, true, [(1, 16383)]⟩, ⟨2, 2, 0, true, []⟩], [(1, 6), (2, 0)]⟩

/-- across-racks balancing picks 7 shards of volume 1, no rack is eligible, and the bookkeeping
    after the phase has lost them (corpus/C16/across_no_rack_drops.ops; class across/shard-dropped-from-bookkeeping). -/
theorem across_drops_shards_witness :
    (acrossStart wDrop 1).todo.length = 7 ∧ (acrossStart wDrop 1).noRackOk 0 1 = true ∧
    judgeBook "across" wDrop wDrop (acrossStart wDrop 1).st = ["across/shard-dropped-from-bookkeeping"] := by decide +kernel

/-! ### shard conservation: the multiset of (volume, shard) over all servers

`copies st vid s` = number of servers whose bookkeeping holds shard `s` of volume `vid`. -/

theorem node_id (st : ESt) (x : Nat) (n : ENode) (h : st.node? x = some n) : n.id = x := by
  have := List.find?_some (p := fun y : ENode => y.id == x) h
  simpa using this

/-- the guard under which a planned move is a real move: different servers, the source holds the shard,
    the destination lacks it (`…/target-already-holds-shard` is the open finding: no planner guard checks the last part) -/
def guardOk (st : ESt) (src dst vid s : Nat) : Bool :=
  src != dst &&
  match st.node? src, st.node? dst with
  | some sn, some dn => holdsShard sn vid s && !holdsShard dn vid s
  | _, _ => false

/-- `shards_conserved_by_move`: a guarded move (`moveMountedShardToEcNode` bookkeeping = addBit at the destination +
    delBit at the source) keeps the number of holders of EVERY (volume, shard) — server ids unique -/
theorem move_preserves_shards (st : ESt) (src dst vid s : Nat) (hu : (st.nodes.map (·.id)).Nodup)
    (hg : guardOk st src dst vid s = true) (vid' j : Nat) :
    copies (st.move src dst vid s) vid' j = copies st vid' j := by
  unfold guardOk at hg
  cases hs : st.node? src with
  | none => simp [hs] at hg
  | some sn =>
    cases hd : st.node? dst with
    | none => simp [hs, hd] at hg
    | some dn =>
      simp only [hs, hd, Bool.and_eq_true, bne_iff_ne, ne_eq, Bool.not_eq_true'] at hg
      have key := Lemmas.C16.copies_move st src dst vid s sn dn hu hs hd hg.1 vid' j
      simp only [hg.2.1, hg.2.2, and_true] at key
      omega

/-- the consequence of the open finding `…/target-already-holds-shard`: a move the planner's guards allow onto a
    server that already holds the shard removes one copy from the bookkeeping -/
theorem move_onto_holder_loses_copy (st : ESt) (src dst vid s : Nat) (sn dn : ENode)
    (hu : (st.nodes.map (·.id)).Nodup) (hs : st.node? src = some sn) (hd : st.node? dst = some dn) (hne : src ≠ dst)
    (h1 : holdsShard sn vid s = true) (h2 : holdsShard dn vid s = true) :
    copies (st.move src dst vid s) vid s + 1 = copies st vid s := by
  have key := Lemmas.C16.copies_move st src dst vid s sn dn hu hs hd hne vid s
  simpa [h1, h2] using key

/-- across racks: `pickNEcShardsToMoveFrom` deletes the picked shard from its source at once (−1), the planned
    move adds it at the destination (+1, its delBit at the source is void): pick + move conserve every shard
    when the destination lacks it.  A pick WITHOUT a following move loses the copy
    (open finding across/shard-dropped-from-bookkeeping, `across_drops_shards_witness`). -/
theorem pick_then_move_preserves_shards (st : ESt) (src dst vid s : Nat) (sn dn : ENode)
    (hu : (st.nodes.map (·.id)).Nodup) (hs : st.node? src = some sn) (hd : st.node? dst = some dn) (hne : src ≠ dst)
    (h1 : holdsShard sn vid s = true) (h2 : holdsShard dn vid s = false) (vid' j : Nat) :
    copies ((st.upd src (·.del vid s)).move src dst vid s) vid' j = copies st vid' j := by
  have hp := Lemmas.C16.copies_pick st src vid s sn hu hs vid' j
  obtain ⟨st1, hst1⟩ : ∃ st1, st1 = st.upd src (·.del vid s) := ⟨_, rfl⟩
  rw [← hst1] at hp ⊢
  have hu1 : (st1.nodes.map (·.id)).Nodup := by rw [hst1, Lemmas.C16.upd_ids]; exact hu
  have hsid := node_id st src sn hs
  have hdid := node_id st dst dn hd
  have hs1 : st1.node? src = some (sn.del vid s) := by
    rw [hst1]
    simp only [ESt.node?, ESt.upd, List.find?_map]
    have : ((fun x : ENode => x.id == src) ∘ fun n => if n.id == src then n.del vid s else n) = fun x => x.id == src := by
      funext n; simp only [Function.comp]; split <;> simp [Lemmas.C16.del_id]
    rw [this]
    have hs' : st.nodes.find? (·.id == src) = some sn := hs
    simp [hs', hsid]
  have hd1 : st1.node? dst = some dn := by
    rw [hst1]
    simp only [ESt.node?, ESt.upd, List.find?_map]
    have : ((fun x : ENode => x.id == dst) ∘ fun n => if n.id == src then n.del vid s else n) = fun x => x.id == dst := by
      funext n; simp only [Function.comp]; split <;> simp [Lemmas.C16.del_id]
    rw [this]
    have hd' : st.nodes.find? (·.id == dst) = some dn := hd
    have hns : ¬ dst = src := fun e => hne e.symm
    simp [hd', hdid, hns]
  have hm := Lemmas.C16.copies_move st1 src dst vid s (sn.del vid s) dn hu1 hs1 hd1 hne vid' j
  have hgone : holdsShard (sn.del vid s) vid s = false := by simp [Lemmas.C16.holds_del]
  by_cases hk : vid' = vid ∧ j = s
  · obtain ⟨rfl, rfl⟩ := hk
    simp [hgone, h2] at hm
    simp [h1] at hp
    omega
  · have e1 : ¬ (vid' = vid ∧ j = s ∧ holdsShard (sn.del vid s) vid s = true) := fun h => hk ⟨h.1, h.2.1⟩
    have e2 : ¬ (vid' = vid ∧ j = s ∧ holdsShard dn vid s = false) := fun h => hk ⟨h.1, h.2.1⟩
    have e3 : ¬ (vid' = vid ∧ j = s ∧ holdsShard sn vid s = true) := fun h => hk ⟨h.1, h.2.1⟩
    simp only [e1, e2, if_false] at hm
    simp only [e3, if_false] at hp
    omega

/-- any sequence of guarded moves -/
def runGuarded : ESt → List (Nat × Nat × Nat × Nat) → Option ESt
  | st, [] => some st
  | st, (src, dst, vid, s) :: rest => if guardOk st src dst vid s then runGuarded (st.move src dst vid s) rest else none

/-- `shards_conserved`: along ANY sequence of guarded moves every (volume, shard) keeps its number of holders -/
theorem guarded_moves_preserve_shards (ms : List (Nat × Nat × Nat × Nat)) :
    ∀ (st out : ESt), (st.nodes.map (·.id)).Nodup → runGuarded st ms = some out →
      (out.nodes.map (·.id)).Nodup ∧ ∀ vid j, copies out vid j = copies st vid j := by
  induction ms with
  | nil => intro st out hu h; simp [runGuarded] at h; subst h; exact ⟨hu, fun _ _ => rfl⟩
  | cons m rest ih =>
    intro st out hu h
    obtain ⟨src, dst, vid, s⟩ := m
    unfold runGuarded at h
    by_cases hg : guardOk st src dst vid s = true
    · simp only [hg, if_true] at h
      have hu' : ((st.move src dst vid s).nodes.map (·.id)).Nodup := by rw [Lemmas.C16.move_ids]; exact hu
      obtain ⟨h1, h2⟩ := ih _ _ hu' h
      exact ⟨h1, fun v j => by rw [h2, move_preserves_shards st src dst vid s hu hg]⟩
    · simp [hg] at h

def wMove : ESt := ⟨[⟨1, 1, 5, true, [(1, 7)]⟩, ⟨2, 1, 5, true, [(1, 8)]⟩, ⟨3, 2, 5, true, []⟩], [(1, 10), (2, 5)]⟩
example : (runGuarded wMove [(1, 2, 1, 0), (2, 3, 1, 3), (1, 3, 1, 1)]).isSome = true ∧ (wMove.nodes.map (·.id)).Nodup := by decide

/-- the within-rack guard makes a move guarded as soon as the destination lacks the shard -/
theorem within_move_is_guarded (st : ESt) (avg vid src s dst : Nat) (h : withinMoveOk st avg vid src s dst = true)
    (hl : ∀ dn, st.node? dst = some dn → holdsShard dn vid s = false) : guardOk st src dst vid s = true := by
  obtain ⟨sn, d, hs, hd, _, hne, _, hb, _⟩ := within_move_guarded st avg vid src s dst h
  have hid := node_id st dst d hd
  have hl' := hl d hd
  have hne' : ¬ src = dst := fun e => hne (hid.trans e.symm)
  unfold guardOk
  simp [hs, hd, Lemmas.C16.holds_eq, hb, hl', hne']
  rw [← Lemmas.C16.holds_eq]; exact hl'

/-- the per-rack step (`doBalanceEcRack`) needs no extra hypothesis: it only moves a shard of a volume the
    destination has no entry for -/
theorem rack_move_is_guarded (st : ESt) (src vid s dst : Nat) (h : rackMoveOk st src vid s dst = true) :
    guardOk st src dst vid s = true := by
  unfold rackMoveOk at h
  cases hs : st.node? src with
  | none => simp [hs] at h
  | some f =>
    cases hd : st.node? dst with
    | none => simp [hs, hd] at h
    | some e =>
      simp only [hs, hd, Bool.and_eq_true, beq_iff_eq] at h
      obtain ⟨hpair, hdue⟩ := h
      have hpick : rackPick f e = some (vid, s) := by
        unfold rackMoveDue at hdue
        simp only [] at hdue
        split at hdue
        · exact hdue
        · simp at hdue
      obtain ⟨h1, h2⟩ := Lemmas.C16.rackPick_guard f e vid s hpick
      have hne : e.id ≠ f.id := by
        simp only [rackPairOk, Bool.and_eq_true, bne_iff_ne, ne_eq] at hpair
        exact hpair.1.1.2
      have hf := node_id st src f hs
      have he := node_id st dst e hd
      unfold guardOk
      simp only [hs, hd, h1, h2]
      simp
      rw [← hf, ← he]; exact fun x => hne x.symm

example : rackMoveOk ⟨[⟨2, 1, 5, true, []⟩, ⟨1, 1, 3, true, [(1, 2047)]⟩], [(1, 8)]⟩ 1 1 0 2 = true := by decide +kernel

/-! ### deduplication removes only duplicates -/

/-- one step of `doDeduplicateEcShards` (applyBalancing = true): the deduplicated shard, present before, is
    present exactly once after; every other (volume, shard) keeps its holders -/
theorem dedup_step_removes_only_duplicates (st : ESt) (vid s keep : Nat) (hu : (st.nodes.map (·.id)).Nodup)
    (hk : dedupKeepOk st vid s keep = true) :
    copies (st.dedupShard vid s keep) vid s = 1 ∧
    ∀ vid' j, ¬ (vid' = vid ∧ j = s) → copies (st.dedupShard vid s keep) vid' j = copies st vid' j := by
  obtain ⟨kn, h1, h2⟩ := Lemmas.C16.keep_is_holder st vid s keep hu hk
  exact ⟨Lemmas.C16.copies_dedupShard_same st vid s keep kn hu h1 h2,
    fun vid' j hne => Lemmas.C16.copies_dedupShard_other st vid s keep vid' j hne⟩

/-- the whole loop over shard ids (each id at most once, as `range shardToLocations` does): afterwards a shard
    that was treated is present exactly once if it was present before (min 1), untreated shards and other
    volumes are untouched — nothing but duplicates is removed -/
theorem dedup_removes_only_duplicates (vid : Nat) (steps : List (Nat × Nat)) :
    ∀ (st out : ESt), (st.nodes.map (·.id)).Nodup → (steps.map (·.1)).Nodup → dedupRun vid st steps = some out →
      (∀ vid' j, (vid' ≠ vid ∨ j ∉ steps.map (·.1)) → copies out vid' j = copies st vid' j) ∧
      (∀ j ∈ steps.map (·.1), copies out vid j = min (copies st vid j) 1) := by
  induction steps with
  | nil =>
    intro st out _ _ h
    simp [dedupRun] at h; subst h
    exact ⟨fun _ _ _ => rfl, fun j hj => by simp at hj⟩
  | cons step rest ih =>
    intro st out hu hn h
    obtain ⟨s, keep⟩ := step
    simp only [List.map_cons, List.nodup_cons] at hn
    unfold dedupRun at h
    by_cases hle : (holders st vid s).length ≤ 1
    · simp only [hle, if_true] at h
      obtain ⟨i1, i2⟩ := ih st out hu hn.2 h
      refine ⟨fun vid' j hc => i1 vid' j ?_, fun j hj => ?_⟩
      · rcases hc with hc | hc
        · exact Or.inl hc
        · exact Or.inr (fun e => hc (by simp [e]))
      · rcases List.mem_cons.mp hj with rfl | hj
        · rw [i1 vid j (Or.inr hn.1), Lemmas.C16.copies_eq_holders]; omega
        · exact i2 j hj
    · simp only [hle, if_false] at h
      by_cases hk : dedupKeepOk st vid s keep = true
      · simp only [hk, if_true] at h
        have hu' : (((st.dedupShard vid s keep).nodes).map (·.id)).Nodup := by rw [Lemmas.C16.dedup_ids]; exact hu
        obtain ⟨i1, i2⟩ := ih _ out hu' hn.2 h
        obtain ⟨d1, d2⟩ := dedup_step_removes_only_duplicates st vid s keep hu hk
        refine ⟨fun vid' j hc => ?_, fun j hj => ?_⟩
        · have hc' : vid' ≠ vid ∨ j ∉ rest.map (·.1) := by
            rcases hc with hc | hc
            · exact Or.inl hc
            · exact Or.inr (fun e => hc (by simp [e]))
          rw [i1 vid' j hc']
          apply d2
          rintro ⟨rfl, rfl⟩
          rcases hc with hc | hc
          · exact hc rfl
          · exact hc (by simp)
        · rcases List.mem_cons.mp hj with rfl | hj
          · rw [i1 vid j (Or.inr hn.1), d1]
            have : copies st vid j = (holders st vid j).length := rfl
            omega
          · rw [i2 j hj, d2 vid j (fun e => hn.1 (e.2 ▸ hj))]
      · simp [hk] at h

def wDup : ESt := ⟨[⟨1, 1, 3, true, [(1, 7)]⟩, ⟨2, 1, 5, true, [(1, 3)]⟩, ⟨3, 2, 4, true, [(1, 9)]⟩], [(1, 8), (2, 4)]⟩
example : (dedupRun 1 wDup [(0, 1), (1, 1), (2, 1), (3, 3)]).map (fun st => (copies st 1 0, copies st 1 1, copies st 1 2, copies st 1 3))
    = some (1, 1, 1, 1) ∧ copies wDup 1 0 = 3 := by decide

/-- the across-racks step on the model (`Across.applyMove`): the picked shard — already deleted from its source by
    `pickNEcShardsToMoveFrom` — reappears at the destination: one holder more when the destination lacked it,
    every other (volume, shard) unchanged -/
theorem across_move_places_picked (a : Across) (src s dst : Nat) (sn dn : ENode)
    (hu : (a.st.nodes.map (·.id)).Nodup) (hs : a.st.node? src = some sn) (hd : a.st.node? dst = some dn) (hne : src ≠ dst)
    (h1 : holdsShard sn a.vid s = false) (h2 : holdsShard dn a.vid s = false) (vid' j : Nat) :
    copies (a.applyMove src s dst).st vid' j = copies a.st vid' j + (if vid' = a.vid ∧ j = s then 1 else 0) := by
  have key := Lemmas.C16.copies_move a.st src dst a.vid s sn dn hu hs hd hne vid' j
  have hst : copies (a.applyMove src s dst).st vid' j = copies (a.st.move src dst a.vid s) vid' j := by
    unfold Across.applyMove
    simp only [hs, hd]
    rfl
  rw [hst]
  by_cases hk : vid' = a.vid ∧ j = s
  · simp [hk, h1, h2] at key ⊢
    obtain ⟨rfl, rfl⟩ := hk
    exact key
  · have e1 : ¬ (vid' = a.vid ∧ j = s ∧ holdsShard sn a.vid s = true) := fun h => hk ⟨h.1, h.2.1⟩
    have e2 : ¬ (vid' = a.vid ∧ j = s ∧ holdsShard dn a.vid s = false) := fun h => hk ⟨h.1, h.2.1⟩
    simp only [e1, e2, hk, if_false] at key ⊢
    omega

/-! hypotheses of the conservation theorems are satisfiable -/
example : guardOk wMove 1 3 1 0 = true ∧ (wMove.nodes.map (·.id)).Nodup := by decide
example : ∃ sn dn, wHold.node? 1 = some sn ∧ wHold.node? 2 = some dn ∧ holdsShard sn 1 0 = true ∧ holdsShard dn 1 0 = true ∧
    copies (wHold.move 1 2 1 0) 1 0 + 1 = copies wHold 1 0 := ⟨_, _, rfl, rfl, by decide, by decide, by decide⟩
example : ∃ sn dn, wMove.node? 1 = some sn ∧ wMove.node? 3 = some dn ∧ holdsShard sn 1 0 = true ∧ holdsShard dn 1 0 = false ∧
    copies ((wMove.upd 1 (·.del 1 0)).move 1 3 1 0) 1 0 = copies wMove 1 0 := ⟨_, _, rfl, rfl, by decide, by decide, by decide⟩
example : withinMoveOk wMove 2 1 1 0 2 = true ∧ ∀ dn, wMove.node? 2 = some dn → holdsShard dn 1 0 = false := by decide
example : dedupKeepOk wDup 1 0 1 = true ∧ (wDup.nodes.map (·.id)).Nodup := by decide

/-! ### free shard slots by recount

"never plans a shard onto a server that has no free shard slot" is judged against where the shards ARE:
capacity (`cap`, from the declared topology: (max − active)·10 of the hdd disk) minus the shards held by
the server's bitmaps (`Spec.recountFree`), not only against the planner's own `freeEcSlot` counter.  On
the model the two are the same number, always. -/
open SwV.Lemmas.C16Slots (SlackOk)

/-- `addEcVolumeShards` / `deleteEcVolumeShards`: counter + shards held is unchanged -/
theorem add_keeps_counter_plus_held (n : ENode) (vid s : Nat) (hs : s < 14) :
    (n.add vid s).free + ((n.add vid s).total : Int) = n.free + (n.total : Int) := Lemmas.C16Slots.add_slack n vid s hs
theorem del_keeps_counter_plus_held (n : ENode) (vid s : Nat) :
    (n.del vid s).free + ((n.del vid s).total : Int) = n.free + (n.total : Int) := Lemmas.C16Slots.del_slack n vid s

theorem delBit_idem (b s : Nat) : delBit (delBit b s) s = delBit b s := by
  have h := Lemmas.C16.hasBit_delBit b s s
  simp [hasBit] at h
  rw [delBit.eq_1 (delBit b s) s]
  simp [h]

/-- the across-racks step deletes every moved shard twice from its source (`pickNEcShardsToMoveFrom`, then
    `moveMountedShardToEcNode`): the second deletion credits no free slot -/
theorem del_twice_credits_once (n : ENode) (vid s : Nat) : ((n.del vid s).del vid s).free = (n.del vid s).free := by
  have h1 := del_keeps_counter_plus_held (n.del vid s) vid s
  have h2 : ((n.del vid s).del vid s).total = (n.del vid s).total := by
    have : ((n.del vid s).del vid s).shards = (n.del vid s).shards ∧ ((n.del vid s).del vid s).hdd = (n.del vid s).hdd := by
      unfold ENode.del
      by_cases hh : n.hdd = true
      · simp only [hh, Bool.not_true, Bool.false_eq_true, if_false, List.map_map, and_true]
        apply List.map_congr_left
        intro e _
        simp only [Function.comp]
        by_cases hv : (e.1 == vid) = true
        · simp [hv, delBit_idem]
        · simp [hv]
      · have hh2 : n.hdd = false := by simpa using hh
        simp [hh2]
    unfold ENode.total
    rw [this.1, this.2]
  omega

/-- `collectEcVolumeServersByDc` / `countFreeShardSlots`: at build time the counter is the recount -/
theorem build_counter_is_recount (id rack : Nat) (hdd : Bool) (max active : Nat) (sh : List (Nat × Nat)) :
    let n : ENode := ⟨id, rack, freeSlots hdd max active sh, hdd, if hdd then sh else []⟩
    n.free = recountFree (fun _ => if hdd then ((max : Int) - active) * 10 else 0) n := by
  cases hdd <;> simp [freeSlots, recountFree, ENode.total]

/-- the model's bookkeeping steps: (dst, vid, s) added / (src, vid, s) deleted / a move -/
inductive SlotStep where
  | add (dst vid s : Nat) | del (src vid s : Nat) | move (src dst vid s : Nat)

def SlotStep.ok : SlotStep → Prop
  | .add _ _ s => s < 14
  | .del .. => True
  | .move _ _ _ s => s < 14

def SlotStep.apply (st : ESt) : SlotStep → ESt
  | .add dst vid s => st.upd dst (·.add vid s)
  | .del src vid s => st.upd src (·.del vid s)
  | .move src dst vid s => st.move src dst vid s

/-- after ANY sequence of planned moves, picks (deletions) and additions of shard ids below 14 the counter of
    every server is still capacity − shards held -/
theorem moves_keep_counter_exact (cap : Nat → Int) (steps : List SlotStep) : ∀ (st : ESt), SlackOk cap st →
    (∀ x ∈ steps, x.ok) → SlackOk cap (steps.foldl SlotStep.apply st) := by
  induction steps with
  | nil => intro st h _; exact h
  | cons x xs ih =>
    intro st h hok
    simp only [List.foldl_cons]
    apply ih _ _ (fun y hy => hok y (List.mem_cons_of_mem _ hy))
    have hx := hok x (List.mem_cons_self ..)
    cases x with
    | add dst vid s => exact Lemmas.C16Slots.slackOk_add cap st dst vid s hx h
    | del src vid s => exact Lemmas.C16Slots.slackOk_del cap st src vid s h
    | move src dst vid s => exact Lemmas.C16Slots.slackOk_move cap st src dst vid s hx h

/-- a destination approved by the guard of `pickOneEcNodeAndMoveOneShard` has a free slot by recount -/
theorem approved_target_has_recounted_slot (cap : Nat → Int) (st : ESt) (h : SlackOk cap st) (dst : Nat) (d : ENode)
    (hd : st.node? dst = some d) (cands : List ENode) (avg vid src : Nat) (hok : destOk cands avg vid src d = true) :
    recountFree cap d > 0 := by
  have := h d (Lemmas.C16Slots.mem_of_node? st dst d hd)
  have := (destOk_sound cands avg vid src d hok).2.1
  omega

/-- on a layout whose counters are exact, the recount clause of the judge adds nothing -/
theorem recount_clause_silent (cap : Nat → Int) (st : ESt) (h : SlackOk cap st) (phase : String) (src vid s dst : Nat) :
    judgeMove phase st src vid s dst (some cap) = judgeMove phase st src vid s dst none := by
  unfold judgeMove
  cases hs : st.node? src with
  | none => rfl
  | some sn =>
    cases hd : st.node? dst with
    | none => rfl
    | some d =>
      have e := h d (Lemmas.C16Slots.mem_of_node? st dst d hd)
      have : (decide (d.free > 0) && decide (recountFree cap d ≤ 0)) = false := by
        rw [← e]
        by_cases hp : d.free > 0
        · have : ¬ d.free ≤ 0 := by omega
          simp [hp, this]
        · simp [hp]
      simp [this]

/-- hypotheses are satisfiable: `wMove` with capacities 8 / 6 / 5, a move and a pick -/
example : SlackOk (fun id => if id = 1 then 8 else if id = 2 then 6 else 5) wMove ∧
    (∀ x ∈ [SlotStep.move 1 3 1 0, .del 2 1 3], x.ok) := by
  refine ⟨?_, ?_⟩
  · intro n hn
    simp only [wMove, List.mem_cons, List.mem_nil_iff, or_false] at hn
    rcases hn with rfl | rfl | rfl <;> decide +kernel
  · intro x hx
    simp only [List.mem_cons, List.mem_nil_iff, or_false] at hx
    rcases hx with rfl | rfl <;> simp [SlotStep.ok]

/-- what the clause catches: a server holding 10 shards with capacity 10 whose counter says 1 (credited
    twice for a shard it gave away earlier) is planned as a destination -/
theorem recount_clause_fires_on_phantom_slot :
    judgeMove "within" ⟨[⟨1, 1, 1, true, [(1, 1023)]⟩, ⟨2, 1, 0, true, [(2, 7)]⟩], [(1, 1)]⟩ 2 2 0 1 (some fun _ => 10) =
      ["within/target-full-by-recount-of-its-shards"] := by decide +kernel

/-! ### ceiling division -/

/-- the model's `ceilDiv a b` IS ⌈a/b⌉ for all a and all b > 0: the least q with a ≤ q·b -/
theorem ceilDiv_is_ceiling (a b : Nat) (hb : b > 0) : a ≤ ceilDiv a b * b ∧ ∀ q, a ≤ q * b → ceilDiv a b ≤ q :=
  Lemmas.C16.ceilDiv_spec a b hb

/-- exact divisions are not rounded up … -/
theorem ceilDiv_exact (q b : Nat) (hb : b > 0) : ceilDiv (q * b) b = q := Lemmas.C16.ceilDiv_exact q b hb

/-- … inexact ones are -/
theorem ceilDiv_inexact (q r b : Nat) (h1 : 0 < r) (h2 : r < b) : ceilDiv (q * b + r) b = q + 1 :=
  Lemmas.C16.ceilDiv_inexact q r b h1 h2

/-- the even-spread target ceil(14/#racks) for 1..14 racks (7 racks: 2, 14 racks: 1) -/
theorem rack_target_table : (List.range 14).map (fun r => ceilDiv 14 (r + 1)) = [14, 7, 5, 4, 3, 3, 2, 2, 2, 2, 2, 2, 2, 1] := by decide

example : ceilDiv 14 7 = 2 ∧ ceilDiv 15 7 = 3 ∧ ceilDiv 0 3 = 0 := by decide

/-! ### bridges: the guard texts and sources the model was written from (T1 tie)

`SwV.Gen.C16` is regenerated from the working tree on every run; an edit to one of these guards or functions
breaks the named obligation below. -/

/-! `ceilDivide` = int(math.Ceil(float64(total) / float64(n))) ↔ Model.ceilDiv (`ceilDiv_is_ceiling`); its three uses: the per-rack target
    ceil(14/#racks) of `acrossStart`, `withinAvg`, `rackAvg` -/
theorem bridge_TotalShardsCount : SwV.Gen.C16.TotalShardsCount = 14 := by decide
theorem bridge_ceil_body : SwV.Gen.C16.ceil_body = "math.Ceil(float64(total) / float64(n))" := by decide
theorem bridge_ceil_quotient : SwV.Gen.C16.ceil_quotient = "float64(total) / float64(n)" := by decide
theorem bridge_across_average : SwV.Gen.C16.across_average = "averageShardsPerEcRack := ceilDivide(erasure_coding.TotalShardsCount, len(racks))" := by decide
theorem bridge_within_average : SwV.Gen.C16.within_average = "averageShardsPerEcNode := ceilDivide(rackToShardCount[rackId], len(possibleDestinationEcNodes))" := by decide
theorem bridge_rackbal_average : SwV.Gen.C16.rackbal_average = "averageShardCount := ceilDivide(totalShardCount, len(rackEcNodes))" := by decide

/-! `pickOneEcNodeAndMoveOneShard` ↔ Model.destOk (`destOk_sound`): not the source, `free > 0`, `popc (bits vid) < avg`;
    NO test that the destination lacks the shard (hypothesis of `within_move_is_guarded`) -/
theorem bridge_dest_is_source : SwV.Gen.C16.dest_is_source = "destEcNode.info.Id == existingLocation.info.Id" := by decide
theorem bridge_dest_no_free_slot : SwV.Gen.C16.dest_no_free_slot = "destEcNode.freeEcSlot <= 0" := by decide
theorem bridge_dest_at_average : SwV.Gen.C16.dest_at_average = "findEcVolumeShards(destEcNode, vid).ShardIdCount() >= averageShardsPerEcNode" := by decide

/-! `pickOneRack` ↔ Across.eligible: `count r < avg && rackFreeOf r > 0` -/
theorem bridge_rack_at_average : SwV.Gen.C16.rack_at_average = "rackToShardCount[string(rackId)] >= averageShardsPerEcRack" := by decide
theorem bridge_rack_no_free_slot : SwV.Gen.C16.rack_no_free_slot = "rack.freeEcSlot <= 0" := by decide

/-! `doBalanceEcShardsAcrossRacks` ↔ acrossStart: racks over the average give `count − avg` picks -/
theorem bridge_across_over : SwV.Gen.C16.across_over = "count > averageShardsPerEcRack" := by decide
theorem bridge_across_pick_count : SwV.Gen.C16.across_pick_count = "count - averageShardsPerEcRack" := by decide

/-! `doBalanceEcShardsWithinOneRack` ↔ Drv.withinRun (`over + avg + k = base`) -/
theorem bridge_within_over : SwV.Gen.C16.within_over = "overLimitCount := shardBits.ShardIdCount() - averageShardsPerEcNode" := by decide
theorem bridge_within_stop : SwV.Gen.C16.within_stop = "overLimitCount <= 0" := by decide

/-! `doBalanceEcRack` ↔ rackMoveDue / rackStopOk (`rack_move_is_guarded`) -/
theorem bridge_rackbal_single : SwV.Gen.C16.rackbal_single = "len(ecRack.ecNodes) <= 1" := by decide
theorem bridge_rackbal_guard : SwV.Gen.C16.rackbal_guard = "fullNodeShardCount > averageShardCount && emptyNodeShardCount+1 <= averageShardCount" := by decide

/-! `moveMountedShardToEcNode` ↔ ESt.move: add at the destination, delete at the source, same shard ids;
    `deleteEcVolumeShards` credits only the bits really removed (ENode.del) -/
theorem bridge_move_adds : SwV.Gen.C16.move_adds = "copiedShardIds" := by decide
theorem bridge_move_deletes : SwV.Gen.C16.move_deletes = "copiedShardIds" := by decide
theorem bridge_del_free_slot : SwV.Gen.C16.del_free_slot = "ecNode.freeEcSlot -= newShardBits.ShardIdCount() - oldShardBits.ShardIdCount()" := by decide

/-! `doDeduplicateEcShards` ↔ dedupExpected / ESt.dedupShard: only shard ids with more than one holder -/
theorem bridge_dedup_single : SwV.Gen.C16.dedup_single = "len(ecNodes) <= 1" := by decide

/-! source pins of the functions the model mirrors -/
theorem bridge_src_ceilDivide : SwV.Gen.C16.src_ceilDivide = "09f804aabda66dbf" := by decide
theorem bridge_src_pickOneEcNodeAndMoveOneShard : SwV.Gen.C16.src_pickOneEcNodeAndMoveOneShard = "4c95eb9fbf0ad5f3" := by decide
theorem bridge_src_pickOneRack : SwV.Gen.C16.src_pickOneRack = "ca53bc080b3ff16e" := by decide
theorem bridge_src_pickNEcShardsToMoveFrom : SwV.Gen.C16.src_pickNEcShardsToMoveFrom = "6925991c2316d7fc" := by decide
theorem bridge_src_doBalanceEcShardsAcrossRacks : SwV.Gen.C16.src_doBalanceEcShardsAcrossRacks = "9b9f73f04b0993af" := by decide
theorem bridge_src_balanceEcShardsWithinRacks : SwV.Gen.C16.src_balanceEcShardsWithinRacks = "f9c64ce6cde7ffe6" := by decide
theorem bridge_src_doBalanceEcShardsWithinOneRack : SwV.Gen.C16.src_doBalanceEcShardsWithinOneRack = "b7ef38de70b6f929" := by decide
theorem bridge_src_doBalanceEcRack : SwV.Gen.C16.src_doBalanceEcRack = "e84e92abd5f3cf7e" := by decide
theorem bridge_src_doDeduplicateEcShards : SwV.Gen.C16.src_doDeduplicateEcShards = "9d65ba336cb7e311" := by decide
theorem bridge_src_moveMountedShardToEcNode : SwV.Gen.C16.src_moveMountedShardToEcNode = "7e30de4f9c01379b" := by decide
theorem bridge_src_findEcVolumeShards : SwV.Gen.C16.src_findEcVolumeShards = "3e0f2e4da3f5abbb" := by decide
theorem bridge_src_addEcVolumeShards : SwV.Gen.C16.src_addEcVolumeShards = "14a728732636dbc2" := by decide
theorem bridge_src_deleteEcVolumeShards : SwV.Gen.C16.src_deleteEcVolumeShards = "61e9c1a8e39f4acf" := by decide

end SwV.Props.C16
