import SwV.Model.C30
import SwV.Spec.C30
namespace SwV.Props.C30
end SwV.Props.C30
