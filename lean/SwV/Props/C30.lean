/-
C30 properties: the mount's write buffering (ContinuousIntervals / WrittenContinuousIntervals, the two dirty-page
buffers, the open file) against the POSIX byte semantics of one open file.  Model: SwV/Model/C30.lean (validated
against the Go code), spec: SwV/Spec/C30.lean.  Auxiliary lemmas: SwV/Lemmas/C30.lean, SwV/Lemmas/C30b.lean.

Definitions (restated here; definitionally equal to the ones the lemma files use, see `nodeOk_iff` … `dirtyByte_eq`):
  NodeOk, Chained, ListOk, Inv    the interval-list invariant: usable nodes, every list contiguous (each node starts where the
                                  previous stops), any two lists separated by a GAP (disjoint and not adjacent)
  dirtyByte                       the dirty byte at a position (first covering node of the flattened lists)
  (core Lean 4.33 has neither List.IsChain nor List.Chain'; `Chained` is the three-line recursive definition)

(P1) the invariant is preserved by every operation
  addInterval_inv       AddInterval keeps `Inv` (both buffers, any node of positive size, any overlap pattern)
  removeLargest_inv     RemoveLargestIntervalLinkedList: the removed list is ListOk, the rest keeps `Inv`, lists ~ removed :: rest,
                        and the removed list is a largest one
  removeLargest_none    under `Inv`: nothing is removed iff the buffer is empty
  inv_temp_append       appending to the temp file keeps `Inv` of the temp-file buffer
(P2) addInterval_byte   AddInterval is "last write wins" byte by byte
(P3) readDataAt_spec    ReadDataAt delivers exactly the dirty bytes of the window, `none` (untouched) elsewhere
     readDataAt_maxStop maxStop ≥ min(off+len, stop) of every list meeting the window, and it is 0 or one of these values
     readDataAt_maxStop_covers   every dirty position of the window lies below maxStop
(P4) read_eq_posix_mem, read_eq_posix_tmp     for EVERY sequence of non-empty writes (any offsets, overlapping, out of
                        order): the dirty read of a window, laid over zeros, is the POSIX content of the window
     read_untouched_is_hole_mem / _tmp         a position the dirty read leaves untouched is a zero byte (hole / beyond EOF) of
                        the POSIX file
     read_dirty_is_posix_mem / _tmp            a position the dirty read fills lies inside the POSIX file and carries its byte
                        (what `dirtyReadJudge` checks)

(P5) flush_eq_posix_partial   for EVERY history of non-empty writes and flushes (no truncate), both buffers, every chunk
                        limit ≥ 1: after a final flush a fresh reader of the stored entry (C17 reader `resolve`) gets exactly
                        the POSIX file.  `_partial`: the hypothesis "no truncate op in the history" is the complement of the
                        known Setattr findings (dirty pages not truncated / chunks below the new size dropped).
     run_sinv           the state invariant behind it (holds after every prefix of the history)
     run_fileSize       along the history: FileSize = POSIX length, `Inv` holds, every dirty byte is the POSIX byte
     truncate_breaks_flush_witness   a truncate in the history breaks "flushed entry = POSIX file" (temp-file buffer:
                        write 0 [1,2,3,4]; truncate 2; flush ⇒ a reader gets [1,2,3,4], POSIX [1,2])

bridge_*                the regenerated branch conditions / pinned sources of the modelled Go functions (T1 tie)

Only `flush_eq_posix_partial` is `_partial` (reason above).  All other theorems are proved as stated in the task (the
only change: `ListOk` uses `Chained` because core has no `List.IsChain`).
-/
import SwV.Model.C30
import SwV.Spec.C30
import SwV.Lemmas.C30b
import SwV.Gen.C30
namespace SwV.Props.C30
open SwV.Model.C30 SwV.Spec.C30

/-! ### the invariant -/

/-- a node is usable: positive size; in-memory: carries exactly `size` bytes; temp-file: its section lies inside the temp file -/
def NodeOk (tk : Bool) (temp : List Nat) (n : Node) : Prop :=
  0 < n.size ∧ (tk = false → n.data.length = n.size) ∧ (tk = true → n.tmp + n.size ≤ temp.length)

/-- each node starts where the previous one stops (sorted + contiguous) -/
def Chained : LList → Prop
  | [] => True
  | [_] => True
  | a :: b :: r => a.off + a.size = b.off ∧ Chained (b :: r)

/-- one linked list: non-empty, usable nodes, contiguous -/
def ListOk (tk : Bool) (temp : List Nat) (l : LList) : Prop :=
  l ≠ [] ∧ (∀ n ∈ l, NodeOk tk temp n) ∧ Chained l

/-- the interval-list invariant: every list is ListOk and any two lists are separated by a GAP
    (disjoint and not adjacent — adjacent lists have been merged) -/
def Inv (tk : Bool) (temp : List Nat) (lists : List LList) : Prop :=
  (∀ l ∈ lists, ListOk tk temp l) ∧ lists.Pairwise (fun a b => tailStop a < headOff b ∨ tailStop b < headOff a)

/-- the dirty byte at position p, if some node of some list covers p -/
def dirtyByte (tk : Bool) (temp : List Nat) (lists : List LList) (p : Nat) : Option Nat :=
  (lists.flatten.find? (fun n => n.off ≤ p ∧ p < n.off + n.size)).map (fun n => (nodeBytes tk temp n).getD (p - n.off) 0)

theorem nodeOk_iff (tk : Bool) (temp : List Nat) (n : Node) : NodeOk tk temp n ↔ SwV.Lemmas.C30.NodeOk tk temp n := Iff.rfl

theorem chained_iff : ∀ (l : LList), Chained l ↔ SwV.Lemmas.C30.Chained l
  | [] => Iff.rfl
  | [_] => Iff.rfl
  | a :: b :: r => by
    show (a.off + a.size = b.off ∧ Chained (b :: r)) ↔ (a.off + a.size = b.off ∧ SwV.Lemmas.C30.Chained (b :: r))
    rw [chained_iff (b :: r)]

theorem listOk_iff (tk : Bool) (temp : List Nat) (l : LList) : ListOk tk temp l ↔ SwV.Lemmas.C30.ListOk tk temp l := by
  unfold ListOk SwV.Lemmas.C30.ListOk
  rw [chained_iff]
  exact Iff.rfl

theorem inv_iff (tk : Bool) (temp : List Nat) (lists : List LList) : Inv tk temp lists ↔ SwV.Lemmas.C30.LInv tk temp lists := by
  unfold Inv SwV.Lemmas.C30.LInv
  constructor
  · rintro ⟨h1, h2⟩; exact ⟨fun l hl => (listOk_iff tk temp l).1 (h1 l hl), h2⟩
  · rintro ⟨h1, h2⟩; exact ⟨fun l hl => (listOk_iff tk temp l).2 (h1 l hl), h2⟩

theorem dirtyByte_eq (tk : Bool) (temp : List Nat) (lists : List LList) (p : Nat) :
    dirtyByte tk temp lists p = SwV.Lemmas.C30.dirtyByte tk temp lists p := rfl

example : Inv false [] [[⟨0, 2, 0, [7, 8]⟩, ⟨2, 1, 0, [9]⟩], [⟨5, 1, 0, [1]⟩]] := by
  refine ⟨?_, by simp [headOff, tailStop]⟩
  intro l hl
  simp only [List.mem_cons, List.not_mem_nil, or_false] at hl
  rcases hl with rfl | rfl
  · exact ⟨by simp, by simp [NodeOk], ⟨rfl, trivial⟩⟩
  · exact ⟨by simp, by simp [NodeOk], trivial⟩

/-! ### (P1) the invariant is preserved -/

theorem addInterval_inv (tk : Bool) (temp : List Nat) (lists : List LList) (n : Node) (h : Inv tk temp lists)
    (hn : NodeOk tk temp n) : Inv tk temp (addInterval tk lists n) :=
  (inv_iff _ _ _).2 (SwV.Lemmas.C30.addInterval_spec hn lists ((inv_iff _ _ _).1 h)).1

example : Inv false [] [] ∧ NodeOk false [] ⟨3, 2, 0, [1, 2]⟩ := ⟨⟨by simp, List.Pairwise.nil⟩, by simp [NodeOk]⟩

theorem removeLargest_inv (tk : Bool) (temp : List Nat) (lists : List LList) (h : Inv tk temp lists) (l : LList)
    (rest : List LList) (hr : removeLargest lists = some (l, rest)) :
    ListOk tk temp l ∧ Inv tk temp rest ∧ lists.Perm (l :: rest) ∧ (∀ l' ∈ rest, lsize l' ≤ lsize l) := by
  obtain ⟨h1, h2, h3, h4⟩ := SwV.Lemmas.C30.removeLargest_spec ((inv_iff _ _ _).1 h) hr
  exact ⟨(listOk_iff _ _ _).2 h1, (inv_iff _ _ _).2 h2, h3, h4⟩

example : removeLargest [[⟨0, 2, 0, [7, 8]⟩], [⟨5, 1, 0, [1]⟩]] = some ([⟨0, 2, 0, [7, 8]⟩], [[⟨5, 1, 0, [1]⟩]]) := by decide

theorem removeLargest_none (tk : Bool) (temp : List Nat) (lists : List LList) (h : Inv tk temp lists) :
    removeLargest lists = none ↔ lists = [] :=
  SwV.Lemmas.C30.removeLargest_none_iff ((inv_iff _ _ _).1 h)

/-- temp-file buffer: appending to the temp file keeps the invariant (sections stay inside the longer file) -/
theorem inv_temp_append (temp more : List Nat) (lists : List LList) (h : Inv true temp lists) :
    Inv true (temp ++ more) lists :=
  (inv_iff _ _ _).2 (SwV.Lemmas.C30.linv_temp_append more ((inv_iff _ _ _).1 h))

example : Inv true [4, 5, 6] [[⟨10, 2, 1, []⟩]] :=
  ⟨by intro l hl; simp only [List.mem_singleton] at hl; subst hl; exact ⟨by simp, by simp [NodeOk], trivial⟩, by simp⟩

/-! ### (P2) AddInterval is "last write wins" on bytes -/

theorem addInterval_byte (tk : Bool) (temp : List Nat) (lists : List LList) (n : Node) (h : Inv tk temp lists)
    (hn : NodeOk tk temp n) (p : Nat) :
    dirtyByte tk temp (addInterval tk lists n) p =
      if n.off ≤ p ∧ p < n.off + n.size then some ((nodeBytes tk temp n).getD (p - n.off) 0) else dirtyByte tk temp lists p :=
  SwV.Lemmas.C30.addInterval_dirtyByte hn lists ((inv_iff _ _ _).1 h) p

example : dirtyByte false [] (addInterval false [[⟨0, 3, 0, [7, 8, 9]⟩]] ⟨1, 1, 0, [5]⟩) 1 = some 5 ∧
    dirtyByte false [] (addInterval false [[⟨0, 3, 0, [7, 8, 9]⟩]] ⟨1, 1, 0, [5]⟩) 2 = some 9 := by decide

/-! ### (P3) ReadDataAt -/

theorem readDataAt_spec (tk : Bool) (temp : List Nat) (lists : List LList) (h : Inv tk temp lists) (off len : Nat) :
    (readDataAt tk temp lists off len).2 = (List.range len).map (fun i => dirtyByte tk temp lists (off + i)) :=
  SwV.Lemmas.C30.readDataAt_bytes ((inv_iff _ _ _).1 h) off len

example : (readDataAt false [] [[⟨2, 2, 0, [7, 8]⟩]] 1 4).2 = [none, some 7, some 8, none] := by decide

/-- maxStop is at least min(off+len, stop) of every list that meets the window, and it is 0 or one of these values
    (hence 0 iff no list meets the window, else the largest of them) -/
theorem readDataAt_maxStop (tk : Bool) (temp : List Nat) (lists : List LList) (h : Inv tk temp lists) (off len : Nat) :
    (∀ l ∈ lists, max off (headOff l) < min (off + len) (tailStop l) →
      min (off + len) (tailStop l) ≤ (readDataAt tk temp lists off len).1) ∧
    ((readDataAt tk temp lists off len).1 = 0 ∨
      ∃ l ∈ lists, max off (headOff l) < min (off + len) (tailStop l) ∧
        (readDataAt tk temp lists off len).1 = min (off + len) (tailStop l)) := by
  have := SwV.Lemmas.C30.readDataAt_max_fold (off := off) (len := len) lists (0, List.replicate len none) ((inv_iff _ _ _).1 h)
  rw [← SwV.Lemmas.C30.readDataAt_eq] at this
  exact ⟨this.2.1, this.2.2⟩

/-- every dirty position of the window lies below maxStop (the caller reads only [off, maxStop) from the buffer) -/
theorem readDataAt_maxStop_covers (tk : Bool) (temp : List Nat) (lists : List LList) (h : Inv tk temp lists) (off len i : Nat)
    (hi : i < len) (hd : dirtyByte tk temp lists (off + i) ≠ none) : off + i < (readDataAt tk temp lists off len).1 := by
  have hinv := (inv_iff _ _ _).1 h
  cases hb : dirtyByte tk temp lists (off + i) with
  | none => exact absurd hb hd
  | some b =>
    obtain ⟨l, hl, hh⟩ := (SwV.Lemmas.C30.dirtyByte_eq_some hinv _ _).1 hb
    have hr := SwV.Lemmas.C30.lhas_range (hinv.1 l hl) hh
    have := (readDataAt_maxStop tk temp lists h off len).1 l hl (by omega)
    omega

/-! ### (P4) any sequence of writes: the dirty read is the POSIX content -/

/-- in-memory buffer after the writes ws (offset, bytes) -/
def memLists (ws : List (Nat × List Nat)) : List LList :=
  ws.foldl (fun ls w => addInterval false ls { off := w.1, size := w.2.length, tmp := 0, data := w.2 }) []

/-- temp-file buffer after the writes: (temp file, lists) -/
def tmpState (ws : List (Nat × List Nat)) : List Nat × List LList :=
  ws.foldl (fun (s : List Nat × List LList) w =>
    (s.1 ++ w.2, addInterval true s.2 { off := w.1, size := w.2.length, tmp := s.1.length, data := [] })) ([], [])

def posixOf (ws : List (Nat × List Nat)) : File := ws.foldl (fun f w => pwrite f w.1 w.2) []

theorem memLists_inv (ws : List (Nat × List Nat)) (hne : ∀ w ∈ ws, w.2 ≠ []) : Inv false [] (memLists ws) :=
  (inv_iff _ _ _).2 (SwV.Lemmas.C30.memFold_spec ws [] (SwV.Lemmas.C30.linv_nil _ _) hne).1

theorem tmpState_inv (ws : List (Nat × List Nat)) (hne : ∀ w ∈ ws, w.2 ≠ []) : Inv true (tmpState ws).1 (tmpState ws).2 :=
  (inv_iff _ _ _).2 (SwV.Lemmas.C30.tmpFold_spec ws ([], []) (SwV.Lemmas.C30.linv_nil _ _) hne).1

/-- the dirty byte of either buffer at p, default 0, is the POSIX byte at p (0 beyond EOF) -/
theorem dirtyByte_posix_mem (ws : List (Nat × List Nat)) (hne : ∀ w ∈ ws, w.2 ≠ []) (p : Nat) :
    dirtyByte false [] (memLists ws) p = SwV.Lemmas.C30.written none ws p ∧
    (posixOf ws).getD p 0 = (SwV.Lemmas.C30.written none ws p).getD 0 := by
  refine ⟨?_, SwV.Lemmas.C30.posix_fold p ws [] none hne rfl⟩
  have := (SwV.Lemmas.C30.memFold_spec ws [] (SwV.Lemmas.C30.linv_nil _ _) hne).2 p
  exact this

theorem dirtyByte_posix_tmp (ws : List (Nat × List Nat)) (hne : ∀ w ∈ ws, w.2 ≠ []) (p : Nat) :
    dirtyByte true (tmpState ws).1 (tmpState ws).2 p = SwV.Lemmas.C30.written none ws p := by
  have := (SwV.Lemmas.C30.tmpFold_spec ws ([], []) (SwV.Lemmas.C30.linv_nil _ _) hne).2 p
  exact this

theorem read_eq_posix_mem (ws : List (Nat × List Nat)) (hne : ∀ w ∈ ws, w.2 ≠ []) (off len : Nat) :
    ((readDataAt false [] (memLists ws) off len).2.map (·.getD 0)) =
      (pread (posixOf ws) off len) ++ List.replicate (len - (pread (posixOf ws) off len).length) 0 := by
  rw [readDataAt_spec _ _ _ (memLists_inv ws hne), SwV.Lemmas.C30.pread_pad, List.map_map]
  apply List.map_congr_left
  intro i _
  obtain ⟨h1, h2⟩ := dirtyByte_posix_mem ws hne (off + i)
  simp only [Function.comp]
  rw [h1, h2]

theorem read_eq_posix_tmp (ws : List (Nat × List Nat)) (hne : ∀ w ∈ ws, w.2 ≠ []) (off len : Nat) :
    ((readDataAt true (tmpState ws).1 (tmpState ws).2 off len).2.map (·.getD 0)) =
      (pread (posixOf ws) off len) ++ List.replicate (len - (pread (posixOf ws) off len).length) 0 := by
  rw [readDataAt_spec _ _ _ (tmpState_inv ws hne), SwV.Lemmas.C30.pread_pad, List.map_map]
  apply List.map_congr_left
  intro i _
  have h1 := dirtyByte_posix_tmp ws hne (off + i)
  have h2 := (dirtyByte_posix_mem ws hne (off + i)).2
  simp only [Function.comp]
  rw [h1, h2]

example : ∀ w ∈ [((3 : Nat), [1, 2]), (1, [9, 9, 9]), (7, [5])], w.2 ≠ [] := by decide

example : (readDataAt true (tmpState [(3, [1, 2]), (1, [9, 9, 9]), (7, [5])]).1 (tmpState [(3, [1, 2]), (1, [9, 9, 9]), (7, [5])]).2 0 9).2
    = [none, some 9, some 9, some 9, some 2, none, none, some 5, none] := by decide

/-- the run-into witness (writes [10,20) [0,5) [5,12) [9,11), temp-file buffer): the third write starts at the end of the most
    recently created list and runs into the first one; AddInterval takes its general path (two lists ⇒ no tail-append shortcut),
    the lists are merged into ONE, and after the fourth write byte 11 is the third write's byte (3), not the first write's (1) -/
example : (tmpState [(10, List.replicate 10 1), (0, List.replicate 5 2), (5, List.replicate 7 3), (9, [4, 4])]).2.length = 1 ∧
    (readDataAt true (tmpState [(10, List.replicate 10 1), (0, List.replicate 5 2), (5, List.replicate 7 3), (9, [4, 4])]).1
      (tmpState [(10, List.replicate 10 1), (0, List.replicate 5 2), (5, List.replicate 7 3), (9, [4, 4])]).2 0 20).2.map (·.getD 0)
    = [2, 2, 2, 2, 2, 3, 3, 3, 3, 4, 4, 3, 1, 1, 1, 1, 1, 1, 1, 1] := by decide

theorem read_untouched_is_hole_mem (ws : List (Nat × List Nat)) (hne : ∀ w ∈ ws, w.2 ≠ []) (off len i : Nat)
    (h : (readDataAt false [] (memLists ws) off len).2[i]? = some none) : (posixOf ws).getD (off + i) 0 = 0 := by
  rw [readDataAt_spec _ _ _ (memLists_inv ws hne), List.getElem?_map] at h
  obtain ⟨h1, h2⟩ := dirtyByte_posix_mem ws hne (off + i)
  cases hr : (List.range len)[i]? with
  | none => rw [hr] at h; cases h
  | some j =>
    have hj : j = i := by
      have := List.getElem?_eq_some_iff.1 hr
      obtain ⟨hlt, he⟩ := this
      simpa using he.symm
    subst hj
    rw [hr, Option.map_some, Option.some.injEq, h1] at h
    rw [h2, h]
    rfl

theorem read_untouched_is_hole_tmp (ws : List (Nat × List Nat)) (hne : ∀ w ∈ ws, w.2 ≠ []) (off len i : Nat)
    (h : (readDataAt true (tmpState ws).1 (tmpState ws).2 off len).2[i]? = some none) : (posixOf ws).getD (off + i) 0 = 0 := by
  rw [readDataAt_spec _ _ _ (tmpState_inv ws hne), List.getElem?_map] at h
  have h1 := dirtyByte_posix_tmp ws hne (off + i)
  have h2 := (dirtyByte_posix_mem ws hne (off + i)).2
  cases hr : (List.range len)[i]? with
  | none => rw [hr] at h; cases h
  | some j =>
    have hj : j = i := by
      have := List.getElem?_eq_some_iff.1 hr
      obtain ⟨hlt, he⟩ := this
      simpa using he.symm
    subst hj
    rw [hr, Option.map_some, Option.some.injEq, h1] at h
    rw [h2, h]
    rfl

/-- a position the dirty read FILLS lies inside the POSIX file and carries its byte (what `dirtyReadJudge` checks) -/
theorem read_dirty_is_posix_mem (ws : List (Nat × List Nat)) (hne : ∀ w ∈ ws, w.2 ≠ []) (off len i b : Nat)
    (h : (readDataAt false [] (memLists ws) off len).2[i]? = some (some b)) :
    off + i < (posixOf ws).length ∧ (posixOf ws).getD (off + i) 0 = b := by
  rw [readDataAt_spec _ _ _ (memLists_inv ws hne), List.getElem?_map] at h
  obtain ⟨h1, h2⟩ := dirtyByte_posix_mem ws hne (off + i)
  cases hr : (List.range len)[i]? with
  | none => rw [hr] at h; cases h
  | some j =>
    have hj : j = i := by
      obtain ⟨hlt, he⟩ := List.getElem?_eq_some_iff.1 hr
      simpa using he.symm
    subst hj
    rw [hr, Option.map_some, Option.some.injEq, h1] at h
    refine ⟨SwV.Lemmas.C30.posix_fold_len _ ws [] none hne (fun hh => absurd rfl hh) (by rw [h]; simp), ?_⟩
    rw [h2, h]
    rfl

theorem read_dirty_is_posix_tmp (ws : List (Nat × List Nat)) (hne : ∀ w ∈ ws, w.2 ≠ []) (off len i b : Nat)
    (h : (readDataAt true (tmpState ws).1 (tmpState ws).2 off len).2[i]? = some (some b)) :
    off + i < (posixOf ws).length ∧ (posixOf ws).getD (off + i) 0 = b := by
  rw [readDataAt_spec _ _ _ (tmpState_inv ws hne), List.getElem?_map] at h
  have h1 := dirtyByte_posix_tmp ws hne (off + i)
  have h2 := (dirtyByte_posix_mem ws hne (off + i)).2
  cases hr : (List.range len)[i]? with
  | none => rw [hr] at h; cases h
  | some j =>
    have hj : j = i := by
      obtain ⟨hlt, he⟩ := List.getElem?_eq_some_iff.1 hr
      simpa using he.symm
    subst hj
    rw [hr, Option.map_some, Option.some.injEq, h1] at h
    refine ⟨SwV.Lemmas.C30.posix_fold_len _ ws [] none hne (fun hh => absurd rfl hh) (by rw [h]; simp), ?_⟩
    rw [h2, h]
    rfl

/-! ### (P5) flush: witnesses that a truncate in the history breaks the refinement -/

open SwV.Model.C17 (resolveList resolveNode outside sortChunks viewFromChunks nonOverlapping compact maxInt64) in
theorem one_chunk_compact : compact [⟨0, 4, 0, 0, 0⟩] = ([⟨0, 4, 0, 0, 0⟩], []) := by
  have hr : resolveList 0 maxInt64 [SwV.Model.C17.Node.data ⟨0, 4, 0, 0, 0⟩] = [⟨0, 4, 0, 0, 0⟩] := by
    simp [resolveList, resolveNode, outside, maxInt64]
  have hsrt : sortChunks [⟨0, 4, 0, 0, 0⟩] = [⟨0, 4, 0, 0, 0⟩] := List.mergeSort_of_pairwise (by decide)
  unfold compact nonOverlapping
  simp only [List.map]
  rw [hr, hsrt]
  decide

open SwV.Model.C17 (resolveList resolveNode outside sortChunks viewFromChunks nonOverlapping compact maxInt64) in
theorem one_chunk_resolve (st : St) (hc : st.chunks = [⟨0, 4, 0, [1, 2, 3, 4]⟩]) (hf : st.fileSize = 2) :
    resolve st = [1, 2, 3, 4] := by
  have hr : resolveList 0 (0 + maxInt64) [SwV.Model.C17.Node.data ⟨0, 4, 0, 0, 0⟩] = [⟨0, 4, 0, 0, 0⟩] := by
    simp [resolveList, resolveNode, outside, maxInt64]
  have hsrt : sortChunks [⟨0, 4, 0, 0, 0⟩] = [⟨0, 4, 0, 0, 0⟩] := List.mergeSort_of_pairwise (by decide)
  unfold resolve
  rw [hc, hf]
  have ht : toC17 [⟨0, 4, 0, [1, 2, 3, 4]⟩] = [⟨0, 4, 0, 0, 0⟩] := by decide
  rw [ht]
  simp only [List.map]
  unfold viewFromChunks nonOverlapping
  rw [hr, hsrt]
  decide

/-- temp-file buffer: write 0 [1,2,3,4]; truncate 2; flush.  The dirty pages are not truncated and the temp-file flush
    does not clamp to FileSize: a reader of the stored entry gets [1,2,3,4], POSIX says [1,2]
    (finding Setattr/dirty-pages-not-truncated).  So `flush_eq_posix_partial` needs its "no truncate" hypothesis. -/
theorem truncate_breaks_flush_witness :
    resolve (flush (truncate (write { tk := true, limit := 4 } 0 [1, 2, 3, 4]) 2)).1 = [1, 2, 3, 4] ∧
    ptruncate (pwrite [] 0 [1, 2, 3, 4]) 2 = [1, 2] := by
  have h1 : tmpFlush (truncate (write { tk := true, limit := 4 } 0 [1, 2, 3, 4]) 2) =
      { tk := true, limit := 4, lists := [], temp := [], hasTemp := false, fileSize := 2,
        chunks := [⟨0, 4, 0, [1, 2, 3, 4]⟩], nextMt := 1, dirtyMeta := true } := by rfl
  have h0 : (truncate (write { tk := true, limit := 4 } 0 [1, 2, 3, 4]) 2).tk = true := rfl
  have ht : toC17 [⟨0, 4, 0, [1, 2, 3, 4]⟩] = [⟨0, 4, 0, 0, 0⟩] := by decide
  refine ⟨?_, by decide⟩
  apply one_chunk_resolve
  · unfold flush
    simp only [h0, if_true, h1]
    rw [ht, one_chunk_compact]
    decide
  · unfold flush
    simp only [h0, if_true, h1]

/-! ### (P5) write/flush histories without truncation: the flushed entry is the POSIX file -/

inductive Op
  | w (off : Nat) (data : List Nat)
  | f

def run (st : St) : List Op → St
  | [] => st
  | .w off d :: r => run (write st off d) r
  | .f :: r => run (flush st).1 r

def posixRun (f : File) : List Op → File
  | [] => f
  | .w off d :: r => posixRun (pwrite f off d) r
  | .f :: r => posixRun f r

theorem posixRun_length_le : ∀ (ops : List Op) (f : File), f.length ≤ (posixRun f ops).length
  | [], f => Nat.le_refl _
  | .w off d :: r, f => by
    have := posixRun_length_le r (pwrite f off d)
    show f.length ≤ (posixRun (pwrite f off d) r).length
    by_cases hd : d = []
    · subst hd
      have : pwrite f off [] = f := rfl
      rw [this] at *
      assumption
    · rw [SwV.Lemmas.C30.pwrite_length f off d hd] at this
      omega
  | .f :: r, f => posixRun_length_le r f

/-- the state invariant (SwV.Lemmas.C30.SInv: interval invariant; FileSize = POSIX length; dirty bytes below FileSize —
    so the flush clamp min(Size, FileSize − Offset) is the identity; chunk mtimes distinct and below the next one; chunks
    inside FileSize; CONTENT: every position carries its dirty byte if dirty, else the content byte (C17 `ByteOk`) of
    the chunk list) holds along every write/flush history, for both buffers -/
theorem run_sinv : ∀ (ops : List Op) (st : St) (f : File), SwV.Lemmas.C30.SInv st f →
    (∀ off d, Op.w off d ∈ ops → d ≠ []) → (posixRun f ops).length ≤ SwV.Model.C17.maxInt64 →
    SwV.Lemmas.C30.SInv (run st ops) (posixRun f ops)
  | [], _, _, h, _, _ => h
  | .w off d :: r, st, f, h, hne, hmax => by
    obtain ⟨h1, _, _⟩ := SwV.Lemmas.C30.write_sinv h off d (hne off d (by simp))
    exact run_sinv r _ _ h1 (fun o d' hm => hne o d' (List.mem_cons_of_mem _ hm)) hmax
  | .f :: r, st, f, h, hne, hmax => by
    have hlen := posixRun_length_le r f
    have hmax' : (posixRun f r).length ≤ SwV.Model.C17.maxInt64 := hmax
    obtain ⟨h1, _, _, _⟩ := SwV.Lemmas.C30.flush_sinv h (by omega)
    exact run_sinv r _ _ h1 (fun o d' hm => hne o d' (List.mem_cons_of_mem _ hm)) hmax'

/-- `_partial` (hypothesis "no truncate in the history" = complement of the findings about Setattr, see
    `truncate_breaks_flush_witness`).  After ANY history of non-empty writes (any offsets, overlapping, out of order) and
    flushes, followed by a flush, a fresh reader of the stored entry (C17's reader) gets exactly the POSIX file — both
    buffers, every chunk limit ≥ 1, including the auto-saves of the in-memory buffer (TotalSize ≥ limit; writes longer
    than the limit are uploaded AND buffered), the page loop of the temp-file flush and CompactFileChunks in every flush. -/
theorem flush_eq_posix_partial (tk : Bool) (limit : Nat) (hl : 0 < limit) (ops : List Op)
    (hne : ∀ off d, Op.w off d ∈ ops → d ≠ []) (hmax : (posixRun [] ops).length ≤ SwV.Model.C17.maxInt64) :
    resolve (flush (run { tk := tk, limit := limit } ops)).1 = posixRun [] ops := by
  have h1 := run_sinv ops _ [] (SwV.Lemmas.C30.sinv_init tk limit hl) hne hmax
  obtain ⟨a1, a2, _, _⟩ := SwV.Lemmas.C30.flush_sinv h1 hmax
  exact SwV.Lemmas.C30.resolve_of_sinv a1 a2 hmax

/-- the same seen from the reading side: during the history (before the final flush) every position carries its dirty byte
    if dirty, else the stored entry's content byte — in particular FileSize is the POSIX length -/
theorem run_fileSize (tk : Bool) (limit : Nat) (hl : 0 < limit) (ops : List Op)
    (hne : ∀ off d, Op.w off d ∈ ops → d ≠ []) (hmax : (posixRun [] ops).length ≤ SwV.Model.C17.maxInt64) :
    (run { tk := tk, limit := limit } ops).fileSize = (posixRun [] ops).length ∧
    Inv (run { tk := tk, limit := limit } ops).tk (run { tk := tk, limit := limit } ops).temp (run { tk := tk, limit := limit } ops).lists ∧
    ∀ p b, dirtyByte (run { tk := tk, limit := limit } ops).tk (run { tk := tk, limit := limit } ops).temp
        (run { tk := tk, limit := limit } ops).lists p = some b →
      p < (posixRun [] ops).length ∧ (posixRun [] ops).getD p 0 = b := by
  have h1 := run_sinv ops _ [] (SwV.Lemmas.C30.sinv_init tk limit hl) hne hmax
  refine ⟨h1.fs, (inv_iff _ _ _).2 h1.inv, ?_⟩
  intro p b hb
  exact ⟨by rw [← h1.fs]; exact h1.dirtyIn p b hb, h1.dirty p b hb⟩

/-- the hypotheses of `flush_eq_posix_partial` are satisfiable (overlapping, out-of-order writes around a flush) -/
example : (∀ off d, Op.w off d ∈ [Op.w 2 [1, 2, 3], .f, .w 0 [9], .w 3 [7, 7, 7]] → d ≠ []) ∧
    (posixRun [] [Op.w 2 [1, 2, 3], .f, .w 0 [9], .w 3 [7, 7, 7]]).length ≤ SwV.Model.C17.maxInt64 ∧
    posixRun [] [Op.w 2 [1, 2, 3], .f, .w 0 [9], .w 3 [7, 7, 7]] = [9, 0, 1, 7, 7, 7] := by
  refine ⟨?_, by decide, by decide⟩
  intro off d h
  simp at h
  rcases h with ⟨_, rfl⟩ | ⟨_, rfl⟩ | ⟨_, rfl⟩ <;> simp

/-! ### bridges: the model's branch conditions are the ones in the source (regenerated from /repo on every check);
    pinned sources of every modelled function (a source edit breaks the obligation and asks for a model review) -/

/-- memAddPage: a write longer than the chunk limit is uploaded at once (and still buffered) -/
theorem bridge_addpage_big_cond : SwV.Gen.C30.addpage_big_cond = "len(data) > int(pages.f.wfs.option.ChunkSizeLimit)" := by decide
/-- memAddPage: the largest list is saved when the buffer holds ≥ limit bytes -/
theorem bridge_addpage_full_cond : SwV.Gen.C30.addpage_full_cond = "pages.intervals.TotalSize() >= pages.f.wfs.option.ChunkSizeLimit" := by decide
/-- saveLargest: the flush clamp by the FileSize attribute -/
theorem bridge_flush_clamp_assign : SwV.Gen.C30.flush_clamp_assign = "chunkSize := min(maxList.Size(), fileSize-maxList.Offset())" := by decide
/-- saveLargest: a clamp of 0 saves nothing and reports `false` (ends the flush loop) -/
theorem bridge_flush_clamp_zero_cond : SwV.Gen.C30.flush_clamp_zero_cond = "chunkSize == 0" := by decide
/-- largestIdx: `≤`, so the LAST list of maximal size is taken -/
theorem bridge_largest_cond : SwV.Gen.C30.largest_cond = "maxSize <= list.Size()" := by decide
/-- addInterval: the single-list fast path -/
theorem bridge_fastpath_cond : SwV.Gen.C30.fastpath_cond = "lastSpan.Tail.Offset+lastSpan.Tail.Size == offset" := by decide
/-- addToTail (temp-file buffer): merge when the node continues the tail in the temp file -/
theorem bridge_tmp_tail_merge_cond : SwV.Gen.C30.tmp_tail_merge_cond = "list.Tail.TempOffset+list.Tail.Size == node.TempOffset" := by decide
/-- truncate: only chunks crossing the new size enter the new chunk list -/
theorem bridge_truncate_chunk_cond : SwV.Gen.C30.truncate_chunk_cond = "chunk.Offset+int64Size > int64(req.Size)" := by decide
/-- truncate: chunks are touched only when the size shrinks -/
theorem bridge_truncate_shrink_cond : SwV.Gen.C30.truncate_shrink_cond = "req.Size < filer.FileSize(entry)" := by decide
/-- write: FileSize = max(offset+len, FileSize) -/
theorem bridge_write_filesize_assign : SwV.Gen.C30.write_filesize_assign = "entry.Attributes.FileSize = uint64(max(req.Offset+int64(len(data)), int64(entry.Attributes.FileSize)))" := by decide
/-- FileHandle.readFromChunks computes the chunk view once per handle (judged, not modelled) -/
theorem bridge_view_cache_cond : SwV.Gen.C30.view_cache_cond = "fh.entryViewCache == nil" := by decide
theorem bridge_src_mem_AddInterval : SwV.Gen.C30.src_mem_AddInterval = "050c3cecf3daae37" := by decide
theorem bridge_src_mem_ReadDataAt : SwV.Gen.C30.src_mem_ReadDataAt = "3345bf3ddb53d6e4" := by decide
theorem bridge_src_mem_RemoveLargest : SwV.Gen.C30.src_mem_RemoveLargest = "d60a6d1669e1a3e8" := by decide
theorem bridge_src_mem_removeList : SwV.Gen.C30.src_mem_removeList = "2e6b94ef9c2e090d" := by decide
theorem bridge_src_mem_ReadData : SwV.Gen.C30.src_mem_ReadData = "f509b2f346f930f5" := by decide
theorem bridge_src_mem_subList : SwV.Gen.C30.src_mem_subList = "e7c71f5c4623f610" := by decide
theorem bridge_src_tmp_AddInterval : SwV.Gen.C30.src_tmp_AddInterval = "37f66af525bde9db" := by decide
theorem bridge_src_tmp_ReadDataAt : SwV.Gen.C30.src_tmp_ReadDataAt = "d9ed838122711f85" := by decide
theorem bridge_src_tmp_subList : SwV.Gen.C30.src_tmp_subList = "1ab5fdf65676ea67" := by decide
theorem bridge_src_tmp_ReadData : SwV.Gen.C30.src_tmp_ReadData = "586d6a04fb2378c4" := by decide
theorem bridge_src_tmp_ToReader : SwV.Gen.C30.src_tmp_ToReader = "7dbe4c73c0d3a8b1" := by decide
theorem bridge_src_tmp_addNodeToTail : SwV.Gen.C30.src_tmp_addNodeToTail = "70f1171d9239a87a" := by decide
theorem bridge_src_mem_AddPage : SwV.Gen.C30.src_mem_AddPage = "b9920f861738f311" := by decide
theorem bridge_src_mem_flushAndSave : SwV.Gen.C30.src_mem_flushAndSave = "934cf0723b7f01fe" := by decide
theorem bridge_src_mem_saveLargest : SwV.Gen.C30.src_mem_saveLargest = "13261a12862f5617" := by decide
theorem bridge_src_mem_saveAll : SwV.Gen.C30.src_mem_saveAll = "0b207a6e624383f5" := by decide
theorem bridge_src_mem_saveToStorage : SwV.Gen.C30.src_mem_saveToStorage = "22720d64a3e196f8" := by decide
theorem bridge_src_tmp_AddPage : SwV.Gen.C30.src_tmp_AddPage = "c01a4adf9d3e85d9" := by decide
theorem bridge_src_tmp_FlushData : SwV.Gen.C30.src_tmp_FlushData = "6933ebfb994794cb" := by decide
theorem bridge_src_tmp_saveAll : SwV.Gen.C30.src_tmp_saveAll = "20ff157fc610e71a" := by decide
theorem bridge_src_tmp_saveToStorage : SwV.Gen.C30.src_tmp_saveToStorage = "09a048bff318aaa4" := by decide
theorem bridge_src_fh_Write : SwV.Gen.C30.src_fh_Write = "249d9d6a260e6ce0" := by decide
theorem bridge_src_fh_doFlush : SwV.Gen.C30.src_fh_doFlush = "115c0e3c4d448870" := by decide
theorem bridge_src_file_Setattr : SwV.Gen.C30.src_file_Setattr = "3b0520326cbf9122" := by decide
theorem bridge_src_file_addChunks : SwV.Gen.C30.src_file_addChunks = "ff750bc90da3b3d0" := by decide

end SwV.Props.C30
